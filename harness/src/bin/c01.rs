//! C01 — generated bindings compile for every accepted header and option set.
//!
//! M. correspondence: identifiers (`rust_mangle`) and overload numbering (`overload_number`) of the
//!    real bindgen vs the Lean model, on headers built from the keyword / `$` / digit-suffix pools.
//! G. oracle: generated C and C++ header families x option sets x editions -> real bindgen ->
//!    `rustc --edition E --crate-type lib --emit metadata` on wrappers that `include!` the output
//!    (batched; `--error-format=json` attributes every error to its case).
//! R. token-level mutants of the repository headers that `clang -fsyntax-only` still accepts.
use bgverif::c01gen::*;
use bgverif::drive::*;
use bgverif::inv;
use bgverif::rng::Rng;
use bgverif::util::{self, json_str, Args};
use std::collections::{BTreeMap, BTreeSet};
use std::fmt::Write as _;
use std::path::{Path, PathBuf};
use std::process::Command;

fn hex(s: &str) -> String { if s.is_empty() { "-".into() } else { s.bytes().map(|b| format!("{b:02x}")).collect() } }
fn unhex(s: &str) -> String {
    if s == "-" { return String::new(); }
    let b: Vec<u8> = (0..s.len() / 2).filter_map(|i| u8::from_str_radix(&s[2 * i..2 * i + 2], 16).ok()).collect();
    String::from_utf8_lossy(&b).into_owned()
}

#[derive(Debug, Clone)]
struct Failure { kind: &'static str, class: String, detail: String, case: String, header: String, flags: Vec<String>, cpp: bool }

#[derive(Default)]
struct Stats { failures: Vec<Failure>, known: BTreeMap<String, u64>, counters: BTreeMap<String, u64>, distinct: BTreeSet<String>, samples: Vec<String>, accepted_unresolved: u64 }
impl Stats {
    fn bump(&mut self, k: &str, n: u64) { *self.counters.entry(k.into()).or_insert(0) += n; }
    fn fail(&mut self, kind: &'static str, class: &str, detail: String, case: &Case) {
        self.bump(&format!("failures_{kind}"), 1);
        self.bump(&format!("failclass_{class}"), 1);
        if self.failures.iter().filter(|f| f.class == class).count() < 4 && self.failures.len() < 80 {
            self.failures.push(Failure { kind, class: class.into(), detail, case: case.name.clone(), header: case.header.clone(), flags: case.flags.clone(), cpp: case.cpp });
        }
    }
}

#[derive(Clone, Debug)]
struct Case {
    name: String,
    cpp: bool,
    header: String,
    flags: Vec<String>,
    clang_args: Vec<String>,
    edition: String,
    blocklisted: Vec<String>,
    facts: Facts,
    origin: String,
    bindings: Option<PathBuf>,
}

fn clang_accepts(path: &Path, cpp: bool, extra: &[String]) -> bool {
    let mut c = Command::new("clang");
    c.arg("-fsyntax-only").arg("-w");
    if cpp { c.args(["-x", "c++", "-std=c++14"]); }
    c.args(extra).arg(path);
    util::run(&mut c).0 == 0
}

// ------------------------------------------------------------------ rustc batches

#[derive(Debug, Clone)]
struct RustcError { code: String, message: String, file: String, rendered: String }

fn json_field(line: &str, key: &str, from: usize) -> Option<(String, usize)> {
    let pat = format!("\"{key}\":\"");
    let i = line[from..].find(&pat)? + from + pat.len();
    let b = line.as_bytes();
    let mut j = i;
    let mut out = String::new();
    while j < b.len() && b[j] != b'"' {
        if b[j] == b'\\' && j + 1 < b.len() { out.push(match b[j + 1] { b'n' => '\n', b't' => '\t', c => c as char }); j += 2; } else { out.push(b[j] as char); j += 1; }
    }
    Some((out, j))
}

fn parse_rustc_json(stderr: &str) -> Vec<RustcError> {
    let mut v = vec![];
    for line in stderr.lines() {
        if !line.starts_with('{') || !line.contains("\"level\":\"error\"") { continue; }
        // top-level message is the first "message" field of the line: `{"$message_type":"diagnostic","message":"…","code":{…}`
        let Some((message, _)) = json_field(line, "message", 0) else { continue };
        if message.starts_with("aborting due to") { continue; }
        let code = line.find("\"code\":{\"code\":\"").and_then(|i| { let s = &line[i + 16..]; s.find('"').map(|e| s[..e].to_owned()) }).unwrap_or_else(|| "none".into());
        // file of the primary span: the `file_name` that precedes `"is_primary":true`
        let file = match line.find("\"is_primary\":true") {
            Some(p) => line[..p].rfind("\"file_name\":\"").and_then(|i| { let s = &line[i + 13..]; s.find('"').map(|e| s[..e].to_owned()) }).unwrap_or_default(),
            None => json_field(line, "file_name", 0).map(|x| x.0).unwrap_or_default(),
        };
        let rendered = line.rfind("\"rendered\":\"").and_then(|i| json_field(line, "rendered", i)).map(|x| x.0).unwrap_or_default();
        v.push(RustcError { code, message, file, rendered });
    }
    v
}

/// compile a batch of bindings files as modules of one crate; returns errors per file path
fn rustc_batch(dir: &Path, tag: &str, edition: &str, files: &[PathBuf]) -> (i32, BTreeMap<String, Vec<RustcError>>, String) {
    let mut w = String::from("#![allow(warnings)]\n");
    for (i, f) in files.iter().enumerate() { let _ = writeln!(w, "pub mod c{i} {{ include!({:?}); }}", f.display().to_string()); }
    let wp = dir.join(format!("wrap_{tag}.rs"));
    util::write(&wp, &w);
    let (rc, _o, e) = util::run(Command::new("rustc").args(["--edition", edition, "--crate-type", "lib", "--emit", "metadata", "--error-format=json", "--cap-lints", "allow"])
        .arg("-o").arg(dir.join(format!("lib_{tag}.rmeta"))).arg(&wp));
    let mut m: BTreeMap<String, Vec<RustcError>> = BTreeMap::new();
    for err in parse_rustc_json(&e) { m.entry(err.file.clone()).or_default().push(err); }
    let _ = std::fs::remove_file(dir.join(format!("lib_{tag}.rmeta")));
    (rc, m, e)
}

/// compile one bindings file as the crate root
fn rustc_solo(dir: &Path, tag: &str, edition: &str, file: &Path) -> (i32, BTreeMap<String, Vec<RustcError>>, String) {
    let (rc, _o, e) = util::run(Command::new("rustc").args(["--edition", edition, "--crate-type", "lib", "--emit", "metadata", "--error-format=json", "--cap-lints", "allow", "-A", "warnings"])
        .arg("-o").arg(dir.join(format!("lib_{tag}.rmeta"))).arg(file));
    let mut m: BTreeMap<String, Vec<RustcError>> = BTreeMap::new();
    for err in parse_rustc_json(&e) { m.entry(file.display().to_string()).or_default().push(err); }
    let _ = std::fs::remove_file(dir.join(format!("lib_{tag}.rmeta")));
    (rc, m, e)
}

/// message with identifiers / numbers blanked (failure signature)
fn signature(e: &RustcError) -> String {
    let mut s = String::new();
    let mut in_tick = false;
    for c in e.message.chars() {
        if c == '`' { in_tick = !in_tick; s.push('`'); continue; }
        if in_tick { continue; }
        if c.is_ascii_digit() { if !s.ends_with('#') { s.push('#'); } continue; }
        s.push(c);
    }
    format!("{} {}", e.code, s.chars().take(90).collect::<String>())
}

// ------------------------------------------------------------------ triage

fn model_one(req: String) -> String { util::model(&[req]).into_iter().next().unwrap_or_default() }

/// Decide what a rustc rejection of one case is.  Returns the known-finding text if the failing
/// input lies in a listed region AND the observed error is the one the model predicts.
fn triage(case: &Case, errs: &[RustcError], bindings: &str, st: &mut Stats) {
    let inv = inv::inventory(bindings).ok();
    let mut remaining: Vec<&RustcError> = vec![];
    for e in errs {
        // unresolved names the user asked bindgen not to define
        if matches!(e.code.as_str(), "E0412" | "E0425" | "E0433" | "E0422" | "E0423") {
            let name = e.message.split('`').nth(1).unwrap_or("").to_string();
            if case.blocklisted.iter().any(|b| b == "*" || *b == name || name.ends_with(&format!("_{b}")) || name == format!("struct_{b}")) { st.accepted_unresolved += 1; continue; }
        }
        remaining.push(e);
    }
    if remaining.is_empty() { return; }
    // E0428: duplicate definitions
    let dup: Vec<String> = remaining.iter().filter(|e| e.code == "E0428" || e.code == "E0124").filter_map(|e| e.message.split('`').nth(1).map(|s| s.to_owned())).collect();
    let mut explained: BTreeSet<String> = BTreeSet::new();
    if !dup.is_empty() {
        // (a) overload-suffix clash: the model's assignNames over the emitted functions' canonical names has that duplicate
        for (scope, names) in &case.facts.fn_names {
            if names.len() < 2 { continue; }
            let req = format!("c01 assign {}", names.iter().map(|n| hex(n)).collect::<Vec<_>>().join(","));
            let ans = model_one(req);
            // answer: region=<0|1> names=<hex,…> dups=<hex,…>
            let region = ans.contains("region=1");
            let dups: Vec<String> = ans.split_whitespace().find_map(|t| t.strip_prefix("dups=")).map(|d| d.split(',').filter(|x| !x.is_empty() && *x != "-").map(unhex).collect()).unwrap_or_default();
            for d in &dup {
                if region && dups.iter().any(|x| x == d || d.ends_with(&format!("_{x}")) || x.ends_with(d.as_str())) {
                    explained.insert(d.clone());
                    *st.known.entry(format!("name_suffix_clash: overload numbering makes two functions `{d}` in {} (canonical names {:?}); rustc E0428, as assignNames predicts", if scope.is_empty() { "the global scope" } else { scope.as_str() }, names)).or_insert(0) += 1;
                }
            }
        }
        // (b) two distinct C identifiers mangle to the same Rust identifier
        for d in &dup {
            if explained.contains(d) { continue; }
            let cands: Vec<&String> = case.facts.idents.iter().filter(|i| **i != *d).collect();
            for a in cands {
                if !case.facts.idents.iter().any(|i| i == d) { continue; }
                let ans = model_one(format!("c01 collide {} {}", hex(a), hex(d)));
                if ans == "1" {
                    explained.insert(d.clone());
                    *st.known.entry(format!("mangle_collision: C identifiers `{a}` and `{d}` both become `{d}` (rust_mangle is not injective); rustc E0428 / E0124, as the model predicts")).or_insert(0) += 1;
                    break;
                }
            }
        }
    }
    let _ = inv;
    let rest: Vec<&&RustcError> = remaining.iter().filter(|e| !(matches!(e.code.as_str(), "E0428" | "E0124" | "E0119" | "E0609" | "E0599" | "E0308" | "E0560" | "E0080") && (e.message.split('`').filter(|s| !s.is_empty()).any(|d| explained.contains(d) || explained.iter().any(|x| d.ends_with(&format!("::{x}")))) || explained.iter().any(|x| e.rendered.contains(&format!(", {x})")) || e.rendered.contains(&format!(" {x})")))))).collect();
    if rest.is_empty() { return; }
    // option / header-feature regions (single definition: Lean `C01Regions.classify`)
    let has = |f: &str| case.flags.iter().any(|x| x == f);
    // documented limitation, not a finding: `Builder::disable_name_namespacing` — "this option may cause
    // bindgen to generate duplicate names": anonymous types of different namespaces are all `_bindgen_ty_N`
    let rest: Vec<&&RustcError> = if has("--disable-name-namespacing") && !has("--enable-cxx-namespaces") {
        let n0 = rest.len();
        let r: Vec<&&RustcError> = rest.into_iter().filter(|e| !(e.code == "E0428" && e.message.contains("`_bindgen_ty_"))).collect();
        if r.len() < n0 { st.bump("documented_duplicate_anonymous_names", (n0 - r.len()) as u64); }
        r
    } else { rest };
    if rest.is_empty() { return; }
    let newtype = case.flags.windows(2).any(|w| w[0] == "--default-alias-style" && w[1].starts_with("new_type"));
    let opts: String = [has("--with-derive-partialord"), has("--with-derive-ord"), has("--with-derive-partialeq"), has("--with-derive-eq"), has("--impl-debug"), has("--impl-partialeq"), has("--explicit-padding"), newtype, has("--no-derive-copy"), has("--c-naming"), case.flags.windows(2).any(|w| w[0] == "--default-enum-style" && (w[1].starts_with("newtype") || w[1] == "bitfield")) || case.flags.iter().any(|f| f.starts_with("--bitfield-enum") || f.starts_with("--newtype-enum") || f.starts_with("--newtype-global-enum")),
        case.flags.windows(2).any(|w| w[0] == "--default-enum-style" && w[1] == "moduleconsts") || case.flags.iter().any(|f| f.starts_with("--constified-enum-module")),
        case.flags.windows(2).any(|w| w[0] == "--default-non-copy-union-style" && w[1] == "manually_drop"),
        has("--flexarray-dst"), has("--represent-cxx-operators"), has("--enable-cxx-namespaces") && has("--disable-name-namespacing")].iter().map(|b| if *b { '1' } else { '0' }).collect();
    let h = &case.header;
    let compact: String = h.split_whitespace().collect::<Vec<_>>().join(" ");
    let empty_union = regex_like_empty(&compact, "union");
    let empty_aligned = compact.contains("aligned(") && (regex_like_empty(&compact, "struct") || regex_like_empty(&compact, "class"));
    let facts: String = [h.contains("packed") || h.contains("#pragma pack"), h.contains("aligned(") || h.contains("alignas"), empty_union, empty_aligned, h.contains(" : ") && h.chars().any(|c| c == ':'), bindings.contains("__BindgenOpaqueArray"), h.contains("__int128") || h.contains("long double"),
        case.cpp && (h.contains("namespace") || h.contains("class ") || h.contains("struct ")),
        tokenize(h).iter().any(|t| (KEYWORDS.contains(&t.as_str()) && !matches!(t.as_str(), "const" | "static" | "struct" | "enum" | "extern" | "union" | "typedef" | "virtual" | "bool" | "final" | "override" | "for" | "if" | "else" | "while" | "return" | "do" | "break" | "continue" | "true" | "false")) || (t.chars().next().is_some_and(|c| c.is_alphabetic() || c == '_') && (t.contains('$') || (t.ends_with('_') && t.len() > 1)))),
        h.contains("union "),
        compact.contains("[]") || compact.contains("[0]"),
        dup_tag_typedef(h, &remaining)].iter().map(|b| if *b { '1' } else { '0' }).collect();
    let mut unexplained: Vec<&RustcError> = vec![];
    let mut cache: BTreeMap<String, String> = BTreeMap::new();
    for e in rest {
        let class = err_class(e);
        let ans = cache.entry(class.to_string()).or_insert_with(|| model_one(format!("c01 region opts={opts} facts={facts} err={class}"))).clone();
        if ans != "-" && !ans.starts_with("bad") {
            *st.known.entry(format!("{ans}: flags {:?}; rustc [{}] {}", case.flags.iter().filter(|f| f.starts_with("--with-derive") || f.starts_with("--impl") || f.contains("alias") || f.contains("padding")).collect::<Vec<_>>(), e.code, e.message.chars().take(110).collect::<String>())).or_insert(0) += 1;
            st.bump(&format!("known_{ans}"), 1);
        } else { unexplained.push(e); }
    }
    if unexplained.is_empty() { return; }
    let sig = signature(unexplained[0]);
    st.fail("oracle", &sig, format!("{} error(s) outside every region; first: [{}] {} (opts={opts} facts={facts})\n{}", unexplained.len(), unexplained[0].code, unexplained[0].message, unexplained[0].rendered.chars().take(900).collect::<String>()), case);
}

/// `<kw> <name>? { }` somewhere in the whitespace-normalised header
fn regex_like_empty(compact0: &str, kw: &str) -> bool {
    // drop `__attribute__((…))` so that `union __attribute__((packed)) U {}` is seen as empty
    let mut c = String::new();
    let mut r0 = compact0;
    while let Some(i) = r0.find("__attribute__((") {
        c.push_str(&r0[..i]);
        let tail = &r0[i..];
        let mut depth = 0; let mut end = tail.len();
        for (k, ch) in tail.char_indices() { if ch == '(' { depth += 1; } else if ch == ')' { depth -= 1; if depth == 0 { end = k + 1; break; } } }
        r0 = &tail[end..];
    }
    c.push_str(r0);
    let compact = c.as_str();
    let mut rest = compact;
    while let Some(i) = rest.find(kw) {
        let after = &rest[i + kw.len()..];
        if let Some(j) = after.find('{') {
            let head = &after[..j];
            let body_empty = after[j + 1..].trim_start().starts_with('}');
            if body_empty && !head.contains(';') && !head.contains('}') && !head.contains('(') || (body_empty && head.contains("aligned(") && !head.contains(';')) { return true; }
        }
        rest = &rest[i + kw.len()..];
    }
    false
}

/// a panic of bindgen on a header clang accepts (no bindings at all)
fn panic_triage(case: &Case, msg: &str, st: &mut Stats) {
    // the in-process driver only has the message; re-run through the CLI for the location
    let hp = std::env::temp_dir().join(format!("bgverif_c01_panic_{}.{}", std::process::id(), if case.cpp { "hpp" } else { "h" }));
    util::write(&hp, &case.header);
    let mut a: Vec<String> = vec![hp.to_string_lossy().into_owned()];
    a.extend(case.flags.iter().cloned());
    a.push("--".into());
    a.extend(case.clang_args.iter().cloned());
    let (_rc, _o, err) = cli(&a, &[], None);
    let _ = std::fs::remove_file(&hp);
    let loc = err.lines().find(|l| l.contains("panicked at")).unwrap_or("").to_string();
    let has = |f: &str| case.flags.iter().any(|x| x == f);
    let h = &case.header;
    if loc.contains("codegen/struct_layout.rs") {
        let opts: String = [has("--with-derive-partialord"), has("--with-derive-ord"), has("--with-derive-partialeq"), has("--with-derive-eq"), has("--impl-debug"), has("--impl-partialeq"), has("--explicit-padding"), false, false, false, false, false, false, false].iter().map(|b| if *b { '1' } else { '0' }).collect();
        let facts: String = [h.contains("packed") || h.contains("#pragma pack"), h.contains("aligned("), false, false, h.contains(" : "), false, false, false, false, false, false, false].iter().map(|b| if *b { '1' } else { '0' }).collect();
        let ans = model_one(format!("c01 region opts={opts} facts={facts} err=layoutPanic"));
        if ans != "-" && !ans.starts_with("bad") {
            *st.known.entry(format!("{ans}: bindgen panics ({}: {msg}) on a header clang accepts; flags {:?}", loc.trim(), case.flags.iter().filter(|f| f.contains("padding")).collect::<Vec<_>>())).or_insert(0) += 1;
            return;
        }
    }
    if msg.contains("is not a valid Ident") || loc.contains("is not a valid Ident") || err.contains("is not a valid Ident") {
        let opts: String = (0..15).map(|i| if i == 14 && has("--represent-cxx-operators") { '1' } else { '0' }).collect();
        let facts: String = (0..12).map(|i| if i == 7 && case.cpp { '1' } else { '0' }).collect();
        let ans = model_one(format!("c01 region opts={opts} facts={facts} err=identPanic"));
        if ans != "-" && !ans.starts_with("bad") {
            *st.known.entry(format!("{ans}: bindgen panics ({}) on a header clang accepts; flags {:?}", err.lines().find(|l| l.contains("not a valid Ident")).unwrap_or("").trim(), case.flags)).or_insert(0) += 1;
            return;
        }
    }
    st.fail("oracle", &format!("bindgen-panic {}", loc.chars().filter(|c| !c.is_ascii_digit()).take(80).collect::<String>()), format!("{msg} | {loc}"), case);
}

/// the name rustc reports as defined twice is, in the header, both a tag and a typedef name
fn dup_tag_typedef(h: &str, errs: &[&RustcError]) -> bool {
    let toks: Vec<String> = tokenize(h).into_iter().filter(|t| !t.trim().is_empty()).collect();
    errs.iter().filter(|e| e.code == "E0428").filter_map(|e| e.message.split('`').nth(1)).any(|d| {
        let d = d.trim_start_matches("struct_").trim_start_matches("union_").trim_start_matches("enum_");
        let as_tag = toks.windows(2).any(|w| matches!(w[0].as_str(), "struct" | "union" | "enum" | "class") && w[1] == d);
        let as_typedef = toks.windows(2).any(|w| w[0] == d && w[1] == ";") && h.contains("typedef");
        as_tag && as_typedef
    })
}

fn err_class(e: &RustcError) -> &'static str {
    let m = e.message.as_str();
    match e.code.as_str() {
        "E0277" | "E0369" if m.contains("can't compare") || m.contains(": Eq`") || m.contains("PartialEq") || m.contains("PartialOrd") || m.contains(": Ord`") || m.contains("binary operation") => "cmp",
        "E0277" if m.contains("doesn't implement `Debug`") => "missingDebug",
        "E0277" if m.contains("the trait bound") && (m.contains(": Hash`") || m.contains(": Default`") || m.contains(": Copy`") || m.contains(": Clone`")) => "missingTrait",
        "E0587" => "e0587",
        "E0223" => "e0223",
        "E0308" => "e0308",
        "E0392" | "E0282" => "e0392",
        "E0428" => "dupName",
        "E0133" => "e0133",
        "E0054" => "e0054",
        "E0412" | "E0425" | "E0433" | "E0422" => "unresolved",
        "E0432" => "e0432",
        "E0423" => "e0423",
        "E0530" if m.contains("shadow statics") => "e0530static",
        "E0530" => "e0530",
        "E0588" => "e0588",
        "E0793" => "e0793",
        "E0080" if m.contains("index out of bounds") || m.contains("overflow") => "layoutAssert",
        _ if m.contains("unions cannot have zero fields") => "emptyUnion",
        _ => "other",
    }
}

// ------------------------------------------------------------------ M. correspondence

fn part_m(args: &Args, root: &Path, st: &mut Stats) {
    let mut r = Rng::new(args.seed ^ 0x3A9);
    let s = Scratch(root.join("m"));
    std::fs::create_dir_all(&s.0).unwrap();
    // (a) identifiers: one function, one variable and one struct field per candidate name
    let mut names: Vec<String> = KEYWORDS.iter().map(|k| k.to_string()).collect();
    for k in ["alignof_", "offsetof", "sizeof_", "typeof_", "proc", "pure", "do_", "i8", "i16", "u16", "u32", "u64", "i64", "i128", "static_", "struct_", "const_", "enum_", "extern_", "for_", "if_", "else_", "while_", "return_", "break_", "continue_", "true_", "false_"] { names.push(k.into()); }
    for i in 0..(if args.thorough() { 400 } else { 60 }) {
        let base: String = (0..r.range(1, 6)).map(|_| *r.pick(&['a', 'b', '_', 'x', '9', '$', 'Z'])).collect();
        let base = if base.chars().next().is_some_and(|c| c.is_ascii_digit()) { format!("n{base}") } else { base };
        names.push(if i % 3 == 0 { format!("{base}$") } else { base });
    }
    names.sort(); names.dedup();
    names.retain(|n| !n.is_empty());
    {
        // functions whose mangled names coincide are told apart by the overload counter: keep one per image
        let imgs = util::model(&names.iter().map(|n| format!("c01 mangle {}", hex(n))).collect::<Vec<_>>());
        let mut seen = BTreeSet::new();
        let mut keep = vec![];
        for (n, i) in names.iter().zip(&imgs) { if seen.insert(i.clone()) { keep.push(n.clone()); } }
        names = keep;
    }
    let mut h = String::new();
    for (i, n) in names.iter().enumerate() {
        let _ = writeln!(h, "int {n}(int {n});");
        let _ = writeln!(h, "struct c01m_s{i} {{ int {n}; }};");
    }
    let out = generate_text(&s, "m.h", &h, &[], &[], false);
    match out.bindings.as_deref().map(inv::inventory) {
        Some(Ok(inventory)) => {
            let reqs: Vec<String> = names.iter().map(|n| format!("c01 mangle {}", hex(n))).collect();
            let ans = util::model(&reqs);
            let by_sym: BTreeMap<String, &inv::ExternFn> = inventory.fns.iter().map(|f| (inv::elf_symbol(&f.ident, &f.link_name), f)).collect();
            let btext = out.bindings.clone().unwrap_or_default();
            for (n, a) in names.iter().zip(&ans) {
                let want = unhex(a);
                st.bump("mangle_names_compared", 1);
                st.distinct.insert(format!("mangle:{}", if want == *n { "kept" } else { "mangled" }));
                match by_sym.get(n) {
                    Some(f) => {
                        if f.ident != want { st.fail("correspondence", "rust_mangle", format!("C name {n:?}: implementation emits `{}`, model says `{want}`", f.ident), &Case { name: "mangle".into(), cpp: false, header: format!("int {n}(int {n});"), flags: vec![], clang_args: vec![], edition: "2021".into(), blocklisted: vec![], facts: Facts::default(), origin: "mangle".into(), bindings: None }); }
                        if let Some((pn, _)) = f.args.first() { if *pn != want { st.fail("correspondence", "rust_mangle-param", format!("parameter {n:?}: implementation `{pn}`, model `{want}`"), &Case { name: "mangle".into(), cpp: false, header: format!("int {n}(int {n});"), flags: vec![], clang_args: vec![], edition: "2021".into(), blocklisted: vec![], facts: Facts::default(), origin: "mangle".into(), bindings: None }); } }
                    }
                    None => { if !btext.contains(&format!("pub fn {want} ")) { st.bump("mangle_symbol_not_found", 1); } }
                }
            }
            if st.samples.len() < 3 { st.samples.push(format!("rust_mangle: {} C names (all keywords, `$` names, random) compared with the model, e.g. `gen` -> `{}`", names.len(), unhex(&ans[names.iter().position(|n| n == "gen").unwrap_or(0)]))); }
        }
        _ => st.fail("oracle", "bindgen-failed", format!("{:?} {:?}", out.error, out.panic), &Case { name: "mangle".into(), cpp: false, header: h.clone(), flags: vec![], clang_args: vec![], edition: "2021".into(), blocklisted: vec![], facts: Facts::default(), origin: "mangle".into(), bindings: None }),
    }
    // (b) overload numbering
    let n = if args.thorough() { 600 } else { 60 };
    let pool = ["foo", "foo1", "foo2", "foo11", "bar", "bar1", "b", "b1", "b12", "type", "x_", "x_1"];
    let mut reqs = vec![];
    let mut metas = vec![];
    for i in 0..n {
        let k = r.range(1, 7);
        let seq: Vec<String> = (0..k).map(|_| (*r.pick(&pool)).to_string()).collect();
        let tys = ["int", "char", "long", "double", "float", "short", "unsigned", "long long", "unsigned char", "void*", "int*", "char*"];
        let mut h = String::new();
        let mut count: BTreeMap<&str, usize> = BTreeMap::new();
        for s in &seq { let c = count.entry(s.as_str()).or_insert(0); let _ = writeln!(h, "void {s}({});", tys[*c % tys.len()]); *c += 1; }
        let sc = Scratch(root.join(format!("ov{i}")));
        std::fs::create_dir_all(&sc.0).unwrap();
        let out = generate_text(&sc, "o.hpp", &h, &[], &["-x", "c++"], false);
        let Some(b) = out.bindings else { continue };
        let Ok(inventory) = inv::inventory(&b) else { continue };
        let got: Vec<String> = inventory.fns.iter().map(|f| f.ident.clone()).collect();
        reqs.push(format!("c01 assign {}", seq.iter().map(|x| hex(x)).collect::<Vec<_>>().join(",")));
        metas.push((seq, got, h, b));
        std::mem::forget(sc);
    }
    let ans = util::model(&reqs);
    let mut pending: Vec<(Case, String, Vec<String>, Vec<String>, bool)> = vec![];
    for ((seq, got, h, b), a) in metas.iter().zip(&ans) {
        let names: Vec<String> = a.split_whitespace().find_map(|t| t.strip_prefix("names=")).map(|d| d.split(',').filter(|x| !x.is_empty()).map(unhex).collect()).unwrap_or_default();
        let region = a.contains("region=1");
        let has_dup = { let mut s = BTreeSet::new(); names.iter().any(|n| !s.insert(n.clone())) };
        st.bump("overload_sets_compared", 1);
        st.distinct.insert(format!("assign:len{}:region{}:dup{}", seq.len(), region as u8, has_dup as u8));
        let case = Case { name: "overloads".into(), cpp: true, header: h.clone(), flags: vec![], clang_args: vec![], edition: "2021".into(), blocklisted: vec![], facts: Facts { fn_names: vec![(String::new(), seq.clone())], ..Default::default() }, origin: "overloads".into(), bindings: None };
        if *got != names { st.fail("correspondence", "assign_names", format!("canonical {seq:?}: implementation {got:?}, model {names:?}"), &case); continue; }
        if has_dup && !region { st.fail("correspondence", "assign_names-region", format!("duplicate outside the region for {seq:?}"), &case); }
        pending.push((case, b.clone(), names.clone(), seq.clone(), has_dup));
    }
    // oracle: all overload sets compiled as modules of one crate, errors attributed per file
    let d = root.join("ovc");
    std::fs::create_dir_all(&d).unwrap();
    let files: Vec<PathBuf> = pending.iter().enumerate().map(|(i, p)| { let f = d.join(format!("ov{i}.rs")); util::write(&f, &p.1); f }).collect();
    for (chunk_i, chunk) in files.chunks(40).enumerate() {
        let (_rc, errs, _raw) = rustc_batch(&d, &format!("ov{chunk_i}"), "2021", chunk);
        for (k, f) in chunk.iter().enumerate() {
            let (case, b, names, seq, has_dup) = &pending[chunk_i * 40 + k];
            st.bump("overload_sets_compiled", 1);
            let e: Vec<RustcError> = errs.get(&f.display().to_string()).cloned().unwrap_or_default();
            if *has_dup {
                let dup_names: BTreeSet<String> = e.iter().filter(|x| x.code == "E0428").filter_map(|x| x.message.split('`').nth(1).map(|s| s.to_owned())).collect();
                let mut seen = BTreeSet::new();
                let pred: BTreeSet<String> = names.iter().filter(|n| !seen.insert((*n).clone())).cloned().collect();
                if !e.is_empty() && dup_names == pred && e.iter().all(|x| x.code == "E0428") {
                    *st.known.entry(format!("name_suffix_clash: C++ overload set {seq:?} is emitted as {names:?}; rustc E0428 for {pred:?} exactly as assignNames predicts")).or_insert(0) += 1;
                } else { st.fail("oracle", "overloads-unexpected", format!("{seq:?} -> {names:?}: errors {:?}", e.iter().map(|x| (&x.code, &x.message)).collect::<Vec<_>>()), case); }
            } else if !e.is_empty() { triage(case, &e, b, st); }
        }
    }
    for i in 0..n { let _ = std::fs::remove_dir_all(root.join(format!("ov{i}"))); }
    // (c) mangle collision probe
    let sc = Scratch(root.join("coll"));
    std::fs::create_dir_all(&sc.0).unwrap();
    let h = "struct match { int a; };\nstruct match_ { int b; };\nstruct c01_fields { int a$; int a__; };\n";
    let out = generate_text(&sc, "c.h", h, &[], &[], false);
    if let Some(b) = out.bindings {
        let f = sc.path("b.rs");
        util::write(&f, &b);
        let (rc, errs, _) = rustc_batch(&sc.0, "coll", "2021", &[f]);
        let e: Vec<RustcError> = errs.into_values().flatten().collect();
        let case = Case { name: "collision".into(), cpp: false, header: h.into(), flags: vec![], clang_args: vec![], edition: "2021".into(), blocklisted: vec![], facts: Facts { idents: vec!["match".into(), "match_".into(), "a$".into(), "a__".into()], ..Default::default() }, origin: "probe".into(), bindings: None };
        if rc != 0 { triage(&case, &e, &b, st); } else { st.distinct.insert("probe:collision:fixed".into()); }
    }
}

// ------------------------------------------------------------------ G / R: exploration

fn run_cases(mut cases: Vec<Case>, root: &Path, st: &mut Stats, tag: &str) {
    // rustc batches per edition, in parallel
    let mut by_ed: BTreeMap<String, Vec<usize>> = BTreeMap::new();
    for (i, c) in cases.iter().enumerate() { if c.bindings.is_some() { by_ed.entry(c.edition.clone()).or_default().push(i); } }
    let mut batches: Vec<(String, Vec<usize>)> = vec![];
    for (ed, idxs) in by_ed {
        // bindings that start with inner attributes (raw lines) must be the crate root
        let (solo, multi): (Vec<usize>, Vec<usize>) = idxs.into_iter().partition(|k| std::fs::read_to_string(cases[*k].bindings.as_ref().unwrap()).map(|t| t.contains("#![")).unwrap_or(false));
        for k in solo { batches.push((format!("{ed}:solo"), vec![k])); }
        for ch in multi.chunks(12) { batches.push((ed.clone(), ch.to_vec())); }
    }
    let threads = std::thread::available_parallelism().map(|x| x.get()).unwrap_or(4).min(16);
    let next = std::sync::atomic::AtomicUsize::new(0);
    let results: std::sync::Mutex<Vec<(usize, BTreeMap<String, Vec<RustcError>>, i32, String)>> = std::sync::Mutex::new(vec![]);
    let cases_ref = &cases;
    let batches_ref = &batches;
    std::thread::scope(|s| {
        for _ in 0..threads {
            s.spawn(|| loop {
                let i = next.fetch_add(1, std::sync::atomic::Ordering::SeqCst);
                if i >= batches_ref.len() { break; }
                let (ed, idxs) = &batches_ref[i];
                let files: Vec<PathBuf> = idxs.iter().map(|k| cases_ref[*k].bindings.clone().unwrap()).collect();
                let (rc, m, raw) = if let Some(e) = ed.strip_suffix(":solo") { rustc_solo(root, &format!("{tag}{i}"), e, &files[0]) } else { rustc_batch(root, &format!("{tag}{i}"), ed, &files) };
                results.lock().unwrap().push((i, m, rc, raw));
            });
        }
    });
    let mut res = results.into_inner().unwrap();
    res.sort_by_key(|x| x.0);
    for (bi, m, rc, raw) in res {
        let (ed, idxs) = &batches[bi];
        st.bump("rustc_batches", 1);
        let mut attributed = 0;
        for k in idxs {
            let c = &cases[*k];
            let f = c.bindings.as_ref().unwrap().display().to_string();
            st.bump("bindings_compiled", 1);
            st.bump(&format!("compiled_edition_{}", ed.trim_end_matches(":solo")), 1);
            if let Some(errs) = m.get(&f) {
                attributed += errs.len();
                let text = std::fs::read_to_string(c.bindings.as_ref().unwrap()).unwrap_or_default();
                st.bump("bindings_rejected", 1);
                triage(c, errs, &text, st);
            }
        }
        if rc != 0 && attributed == 0 {
            // errors without a file (e.g. in the wrapper): attribute to the whole batch
            let c = &cases[idxs[0]];
            st.fail("oracle", "rustc-unattributed", raw.chars().take(1500).collect(), c);
        }
    }
    for c in cases.iter_mut() { if let Some(b) = c.bindings.take() { let _ = std::fs::remove_file(b); } }
}

/// corpus/C01: fixed shapes with their own flag lines, run first
fn part_k(root: &Path, st: &mut Stats) {
    let dir = Path::new(&std::env::var("VERIF_DIR").unwrap_or_else(|_| "/verif".into())).join("corpus/C01");
    let mut files: Vec<PathBuf> = std::fs::read_dir(&dir).map(|d| d.filter_map(|e| e.ok()).map(|e| e.path()).filter(|p| p.extension().is_some_and(|e| e == "h" || e == "hpp")).collect()).unwrap_or_default();
    files.sort();
    let s = Scratch(root.join("k"));
    std::fs::create_dir_all(&s.0).unwrap();
    let mut cases = vec![];
    for (fi, f) in files.iter().enumerate() {
        let text = std::fs::read_to_string(f).unwrap_or_default();
        let cpp = f.extension().is_some_and(|e| e == "hpp");
        let stem = f.file_stem().unwrap().to_string_lossy().into_owned();
        let hp = s.path(&format!("{stem}.{}", if cpp { "hpp" } else { "h" }));
        util::write(&hp, &text);
        for (k, line) in text.lines().filter_map(|l| l.strip_prefix("// bindgen-flags:")).enumerate() {
            let all = util::shell_split(line);
            let (pre, post): (Vec<String>, Vec<String>) = match all.iter().position(|x| x == "--") { Some(i) => (all[..i].to_vec(), all[i + 1..].to_vec()), None => (all.clone(), vec![]) };
            let edition = pre.iter().position(|x| x == "--rust-edition").and_then(|i| pre.get(i + 1)).cloned().unwrap_or_else(|| "2021".into());
            let mut flags: Vec<String> = vec![hp.to_string_lossy().into_owned(), "--formatter".into(), "prettyplease".into()];
            flags.extend(pre.iter().cloned());
            flags.push("--".into());
            flags.extend(post.iter().cloned());
            let out = generate_with_flags(&flags, None);
            st.bump("corpus_runs", 1);
            let mut case = Case { name: format!("corpus:{stem}:{k}"), cpp, header: text.clone(), flags: pre.clone(), clang_args: post.clone(), edition, blocklisted: vec![], facts: Facts::default(), origin: "corpus".into(), bindings: None };
            match out.bindings {
                Some(b) => { let bp = s.path(&format!("k{fi}_{k}.rs")); util::write(&bp, &b); case.bindings = Some(bp); }
                None => {
                    if let Some(p) = out.panic { st.bump("bindgen_panics", 1); panic_triage(&case, &p, st); }
                    else { st.fail("oracle", "bindgen-failed", format!("corpus case: {:?}", out.error), &case); }
                }
            }
            cases.push(case);
        }
    }
    run_cases(cases, root, st, "k_");
}

fn part_g(args: &Args, root: &Path, st: &mut Stats) {
    let mut r = Rng::new(args.seed ^ 0x6E6);
    let n = if args.thorough() { 1200 } else { 170 };
    let nopt = if args.thorough() { 3 } else { 2 };
    let s = Scratch(root.join("g"));
    std::fs::create_dir_all(&s.0).unwrap();
    let mut cases = vec![];
    for i in 0..n {
        let cpp = i % 2 == 1;
        let (h, facts) = if cpp { gen_cpp_header(&mut r) } else { gen_c_header(&mut r) };
        let hp = s.path(&format!("g{i}.{}", if cpp { "hpp" } else { "h" }));
        util::write(&hp, &h);
        st.bump("headers_generated", 1);
        if !clang_accepts(&hp, cpp, &[]) { st.bump("headers_rejected_by_clang", 1); continue; }
        st.bump(if cpp { "headers_cpp" } else { "headers_c" }, 1);
        for f in &facts.features { st.distinct.insert(format!("feature:{}:{f}", if cpp { "cpp" } else { "c" })); }
        for k in 0..nopt {
            let o = gen_options(&mut r, cpp, &facts);
            let mut flags: Vec<String> = vec![hp.to_string_lossy().into_owned(), "--formatter".into(), "prettyplease".into()];
            flags.extend(o.flags.iter().cloned());
            let clang_args: Vec<String> = if cpp { vec!["-x".into(), "c++".into(), "-std=c++14".into()] } else { vec![] };
            flags.push("--".into());
            flags.extend(clang_args.iter().cloned());
            let out = generate_with_flags(&flags, None);
            st.bump("bindgen_runs", 1);
            for fl in &o.flags { if fl.starts_with("--") { st.distinct.insert(format!("flag:{fl}")); } }
            let mut case = Case { name: format!("g{i}_{k}"), cpp, header: h.clone(), flags: o.flags.clone(), clang_args, edition: o.edition.into(), blocklisted: o.blocklisted.clone(), facts: facts.clone(), origin: "generated".into(), bindings: None };
            match out.bindings {
                Some(b) => { let bp = s.path(&format!("g{i}_{k}.rs")); util::write(&bp, &b); case.bindings = Some(bp); }
                None => {
                    if let Some(p) = out.panic { st.bump("bindgen_panics", 1); panic_triage(&case, &p, st); }
                    else { st.bump("bindgen_errors", 1); }
                }
            }
            cases.push(case);
        }
        if cases.len() >= 480 { run_cases(std::mem::take(&mut cases), root, st, &format!("g{i}_")); }
    }
    run_cases(cases, root, st, "gl_");
}

fn part_r(args: &Args, root: &Path, st: &mut Stats) {
    let mut r = Rng::new(args.seed ^ 0x4E4);
    let n = if args.thorough() { 800 } else { 60 };
    let s = Scratch(root.join("r"));
    std::fs::create_dir_all(&s.0).unwrap();
    let headers: Vec<(PathBuf, Vec<String>)> = util::repo_headers().into_iter().filter(|(p, fl)| {
        let n = p.file_name().unwrap().to_string_lossy().to_string();
        // outside the property: Objective-C, headers needing extra files / raw lines the wrapper cannot provide, dynamic loading
        !n.contains("objc") && !n.contains("field_attr") && !fl.iter().any(|f| f.contains("objective-c") || f == "--dynamic-loading" || f == "--wrap-static-fns" || f == "--generate-block" || f == "--field-attr" || f.contains("#[path") || f.starts_with("--target") || f.starts_with("-target") || f == "--block-extern-crate" || f == "--objc-extern-crate" || f.starts_with("--depfile") || f.contains("nightly") || f == "--emit-diagnostics")
    }).collect();
    let mut cases = vec![];
    let mut tries = 0;
    while cases.len() < n && tries < n * 8 {
        tries += 1;
        let (p, fl) = r.pick(&headers).clone();
        let Ok(src) = std::fs::read_to_string(&p) else { continue };
        let cpp = p.extension().is_some_and(|e| e == "hpp");
        let unchanged = r.chance(1, 10);
        let (m, kind) = if unchanged { (src.clone(), "unchanged") } else { mutate(&src, &mut r) };
        if kind == "none" { continue; }
        let ext = if cpp { "hpp" } else { "h" };
        let dir = s.path(&format!("r{tries}"));
        std::fs::create_dir_all(&dir).unwrap();
        let hp = dir.join(p.file_name().unwrap());
        let _ = ext;
        util::write(&hp, &m);
        // split flags at `--`
        let pos = fl.iter().position(|f| f == "--");
        let (bflags, cargs): (Vec<String>, Vec<String>) = match pos { Some(i) => (fl[..i].to_vec(), fl[i + 1..].to_vec()), None => (fl.clone(), vec![]) };
        let mut cargs = cargs;
        cargs.push(format!("-I{}", p.parent().unwrap().display()));
        if cpp && !cargs.iter().any(|a| a.starts_with("-std=")) { cargs.push("-std=c++14".into()); }
        st.bump("mutants_tried", 1);
        if !clang_accepts(&hp, cpp, &cargs) { st.bump("mutants_rejected_by_clang", 1); let _ = std::fs::remove_dir_all(&dir); continue; }
        let edition = *r.pick(&["2018", "2021", "2024"]);
        let mut a: Vec<String> = vec![hp.to_string_lossy().into_owned()];
        if !bflags.iter().any(|f| f.starts_with("--formatter") || f == "--no-rustfmt-bindings") { a.push("--formatter".into()); a.push("prettyplease".into()); }
        a.extend(bflags.iter().cloned());
        if !bflags.iter().any(|f| f == "--rust-edition" || f.starts_with("--rust-target")) { a.push("--rust-edition".into()); a.push(edition.into()); if edition == "2024" { a.push("--rust-target".into()); a.push("1.85".into()); } }
        a.push("--".into());
        a.extend(cargs.iter().cloned());
        let (rc, out, err) = cli(&a, &[], Some(&dir));
        st.bump("bindgen_runs", 1);
        st.distinct.insert(format!("mutation:{kind}"));
        let blocklisted: Vec<String> = bflags.windows(2).filter(|w| w[0].starts_with("--blocklist") || w[0] == "--opaque-type" && false).map(|w| w[1].clone()).collect();
        let has_raw = bflags.iter().any(|f| f.contains("raw-line") || f == "--ctypes-prefix" || f.starts_with("--blocklist") || f.contains("int-macro") || f == "--no-recursive-allowlist" || f.starts_with("--allowlist") && false);
        let edition_used = bflags.windows(2).find(|w| w[0] == "--rust-edition").map(|w| w[1].clone()).unwrap_or_else(|| if bflags.iter().any(|f| f.starts_with("--rust-target")) { "2021".into() } else { edition.to_string() });
        let mut case = Case { name: format!("mut_{}_{kind}", p.file_name().unwrap().to_string_lossy()), cpp, header: m.clone(), flags: bflags.clone(), clang_args: cargs.clone(), edition: edition_used, blocklisted, facts: Facts { idents: tokenize(&m).into_iter().filter(|t| t.chars().next().is_some_and(|c| c.is_alphabetic() || c == '_')).collect(), ..Default::default() }, origin: format!("{}:{kind}", p.display()), bindings: None };
        if rc != 0 {
            if err.contains("panicked at") { st.bump("bindgen_panics", 1); let msg = err.lines().skip_while(|l| !l.contains("panicked at")).nth(1).unwrap_or("").to_string(); panic_triage(&case, &msg, st); }
            else { st.bump("bindgen_errors", 1); }
            let _ = std::fs::remove_dir_all(&dir);
            continue;
        }
        if has_raw { case.blocklisted.push("*".into()); }
        let bp = s.path(&format!("r{tries}.rs"));
        util::write(&bp, &out);
        case.bindings = Some(bp);
        cases.push(case);
        let _ = std::fs::remove_dir_all(&dir);
    }
    st.bump("mutants_accepted", cases.len() as u64);
    run_cases(cases, root, st, "r_");
}

fn main() {
    let args = Args::parse();
    quiet_panics();
    let scratch = Scratch::new("c01");
    let root = scratch.0.clone();
    let mut st = Stats::default();
    let only: Option<String> = args.extra.iter().find_map(|a| a.strip_prefix("--only=").map(|s| s.to_owned()));
    let want = |p: &str| only.as_deref().map_or(true, |o| o.split(',').any(|x| x == p));
    if want("k") { part_k(&root, &mut st); }
    if want("m") { part_m(&args, &root, &mut st); }
    if want("g") { part_g(&args, &root, &mut st); }
    if want("r") { part_r(&args, &root, &mut st); }
    let mut j = String::from("{\n");
    let _ = writeln!(j, " \"tier\": {}, \"seed\": {},", json_str(&args.tier), args.seed);
    let _ = writeln!(j, " \"counters\": {{{}}},", st.counters.iter().map(|(k, v)| format!("{}: {v}", json_str(k))).collect::<Vec<_>>().join(", "));
    let _ = writeln!(j, " \"accepted_unresolved\": {},", st.accepted_unresolved);
    let _ = writeln!(j, " \"distinct_nontrivial\": {},", st.distinct.len());
    let _ = writeln!(j, " \"distinct_classes\": [{}],", st.distinct.iter().take(300).map(|s| json_str(s)).collect::<Vec<_>>().join(", "));
    let _ = writeln!(j, " \"samples\": [{}],", st.samples.iter().map(|s| json_str(s)).collect::<Vec<_>>().join(", "));
    let _ = writeln!(j, " \"known\": [{}],", st.known.iter().map(|(k, v)| format!("{{\"what\": {}, \"count\": {v}}}", json_str(k))).collect::<Vec<_>>().join(", "));
    let _ = writeln!(j, " \"failures\": [{}]", st.failures.iter().map(|f| format!("{{\"kind\": {}, \"class\": {}, \"detail\": {}, \"case\": {}, \"cpp\": {}, \"header\": {}, \"flags\": [{}]}}", json_str(f.kind), json_str(&f.class), json_str(&f.detail), json_str(&f.case), f.cpp, json_str(&f.header), f.flags.iter().map(|x| json_str(x)).collect::<Vec<_>>().join(", "))).collect::<Vec<_>>().join(",\n  "));
    j.push_str("}\n");
    util::write(&args.out.join("report.json"), &j);
    println!("c01: {} failure records, {} known, counters {:?}", st.failures.len(), st.known.len(), st.counters);
}
