//! Records of the IR dump that matter for layout (C02 / C06): composite types with their
//! fields, canonical array element types, sizedness / copy facts; and the `lay comp …`
//! request line for the Lean model.
use std::collections::{BTreeMap, BTreeSet};

use crate::irdump::Record;

#[derive(Debug, Clone)]
pub struct IrType {
    pub id: u64,
    pub kind: String,
    pub inner: Option<u64>,
    pub len: Option<u64>,
    pub layout: Option<(u64, u64)>,
    pub name: Option<String>,
}

#[derive(Debug, Clone)]
pub struct IrField {
    pub idx: usize,
    pub is_unit: bool,
    pub name: Option<String>,
    pub ty: u64,
    pub off_bits: Option<u64>,
    pub layout: Option<(u64, u64)>,
    pub nth: u64,
    /// bit-fields of a unit: (name, ty, offset into unit, width, offset in struct)
    pub bfs: Vec<(Option<String>, u64, u64, u64, Option<u64>)>,
}

#[derive(Debug, Clone)]
pub struct IrComp {
    pub id: u64,
    pub c_name: Option<String>,
    pub rust_name: String,
    pub path: String,
    pub is_union: bool,
    pub layout: Option<(u64, u64)>,
    pub is_packed: bool,
    pub fwd: bool,
    pub opaque: bool,
    pub own_virtual: bool,
    pub has_bitfields: bool,
    pub nontype_tparams: bool,
    pub all_tparams_empty: bool,
    pub has_bases: bool,
    pub codegen: bool,
    pub zero_sized: bool,
    pub has_vtable_ptr: bool,
    pub fields: Vec<IrField>,
}

#[derive(Debug, Default, Clone)]
pub struct Ir {
    pub types: BTreeMap<u64, IrType>,
    pub comps: Vec<IrComp>,
    pub cannot_copy: BTreeSet<u64>,
    pub opts: BTreeMap<String, String>,
}

fn lay(s: &str) -> Option<(u64, u64)> {
    if s == "-" || s.is_empty() { return None; }
    let mut it = s.split(',');
    Some((it.next()?.parse().ok()?, it.next()?.parse().ok()?))
}

impl Ir {
    pub fn from_dump(recs: &[Record]) -> Ir {
        let mut ir = Ir::default();
        let mut items: BTreeMap<u64, &Record> = BTreeMap::new();
        let mut sized: BTreeMap<u64, String> = BTreeMap::new();
        let mut vt: BTreeMap<u64, String> = BTreeMap::new();
        let mut fields: BTreeMap<u64, Vec<IrField>> = BTreeMap::new();
        for r in recs {
            match r.tag.as_str() {
                "opt" => { ir.opts = r.kv.clone(); }
                "item" => { if let Some(id) = r.num("id") { items.insert(id, r); } }
                "analysis" => {
                    let id = r.num("id").unwrap_or(u64::MAX);
                    match r.get("name") {
                        "sizedness" => { sized.insert(id, r.get("value").to_string()); }
                        "has_vtable" => { vt.insert(id, r.get("value").to_string()); }
                        "derive_copy" => { ir.cannot_copy.insert(id); }
                        _ => {}
                    }
                }
                "type" => {
                    let id = r.num("id").unwrap();
                    ir.types.insert(id, IrType { id, kind: r.get("k").to_string(), inner: r.num("inner"), len: r.num("len"),
                        layout: lay(r.get("layout")), name: r.opt_str("name") });
                }
                "field" => {
                    let comp = r.num("comp").unwrap();
                    let is_unit = r.words.iter().any(|w| w == "unit");
                    let mut bfs = vec![];
                    if is_unit && r.get("bfs") != "-" {
                        for b in r.get("bfs").split(',') {
                            let p: Vec<&str> = b.split(':').collect();
                            if p.len() == 5 {
                                bfs.push((if p[0] == "-" { None } else { Some(crate::irdump::unesc(p[0])) }, p[1].parse().unwrap_or(0), p[2].parse().unwrap_or(0),
                                          p[3].parse().unwrap_or(0), p[4].parse().ok()));
                            }
                        }
                    }
                    fields.entry(comp).or_default().push(IrField {
                        idx: r.num("idx").unwrap_or(0) as usize, is_unit, name: r.opt_str("name"), ty: r.num("ty").unwrap_or(0),
                        off_bits: r.num("off"), layout: lay(r.get("layout")), nth: r.num("nth").unwrap_or(0), bfs });
                }
                _ => {}
            }
        }
        for r in recs {
            if r.tag != "type" || r.get("k") != "Comp" { continue; }
            let id = r.num("id").unwrap();
            let item = items.get(&id);
            let path = item.map(|i| i.get("path").to_string()).unwrap_or_default();
            let rust_name = crate::irdump::unesc(path.rsplit("::").next().unwrap_or(""));
            ir.comps.push(IrComp {
                id, c_name: r.opt_str("name"), rust_name, path,
                is_union: r.get("ck") == "union", layout: lay(r.get("layout")), is_packed: r.flag("is_packed"), fwd: r.flag("fwd"),
                opaque: item.map_or(false, |i| i.flag("opaque")), own_virtual: r.flag("own_virtual"), has_bitfields: r.flag("has_bitfields"),
                nontype_tparams: r.flag("nontype_tparams"), all_tparams_empty: r.get("all_tparams") == "-", has_bases: r.get("bases") != "-",
                codegen: item.map_or(false, |i| i.flag("codegen")),
                // `lookup_sizedness` defaults to ZeroSized for types the analysis has no entry for
                zero_sized: sized.get(&id).map_or(true, |v| v == "ZeroSized"),
                has_vtable_ptr: vt.get(&id).map_or(false, |v| v == "SelfHasVtable"),
                fields: fields.remove(&id).unwrap_or_default(),
            });
        }
        ir
    }

    /// `Type::canonical_type`: through type references and aliases
    pub fn canonical(&self, mut id: u64) -> Option<&IrType> {
        for _ in 0..64 {
            let t = self.types.get(&id)?;
            match t.kind.as_str() {
                "ResolvedTypeRef" | "Alias" | "TemplateAlias" => id = t.inner?,
                _ => return Some(t),
            }
        }
        None
    }

    /// `Type::layout(ctx)` as the dump recorded it, following type references when absent
    pub fn type_layout(&self, mut id: u64) -> Option<(u64, u64)> {
        for _ in 0..64 {
            let t = self.types.get(&id)?;
            if t.layout.is_some() { return t.layout; }
            match t.kind.as_str() {
                "ResolvedTypeRef" => id = t.inner?,
                "Pointer" => return Some((8, 8)),
                _ => return None,
            }
        }
        None
    }
}

/// bit offset at which libclang's numbers say the unit starts
pub fn unit_start_bits(f: &IrField) -> Option<u64> {
    f.bfs.iter().filter_map(|b| b.4.and_then(|o| o.checked_sub(b.2))).min()
}

pub struct ModelOpts {
    pub force_padding: bool,
    pub ptr_size: u64,
    pub u64_align: u64,
    pub manually_drop: bool,
}

fn l2s(l: Option<(u64, u64)>) -> String {
    l.map_or("-".to_string(), |(s, a)| format!("{s},{a}"))
}

/// `packed_attr` is not in the dump: pass what the generator knows, or None to infer it from
/// `is_packed` and the field alignments (then the `is_packed` comparison is vacuous for that comp).
pub fn model_request(ir: &Ir, c: &IrComp, o: &ModelOpts, packed_attr: Option<bool>, contains_align: &[bool]) -> String {
    let detect = c.layout.map_or(false, |(_, pa)| c.fields.iter().any(|f| f.layout.map_or(false, |(_, a)| a > pa))
        || (c.own_virtual && pa == 1));
    let pattr = packed_attr.unwrap_or(c.is_packed && !detect);
    let derive_copy = ir.opts.get("derive_copy").map_or(true, |v| v == "1");
    let copy = c.fields.iter().all(|f| f.is_unit || (derive_copy && !ir.cannot_copy.contains(&f.ty)));
    let fields: Vec<String> = c.fields.iter().enumerate().map(|(fi, f)| {
        if f.is_unit {
            let bits_end = f.bfs.iter().map(|b| b.2 + b.3).max().unwrap_or(0);
            format!("u:{}:{}:{}:{}", f.nth, l2s(f.layout), bits_end, unit_start_bits(f).map_or("-".to_string(), |s| s.to_string()))
        } else {
            let arr = match ir.canonical(f.ty) {
                Some(t) if t.kind == "Array" => {
                    let el = t.inner.and_then(|i| ir.type_layout(i));
                    format!("{},{}", l2s(el), t.len.unwrap_or(0))
                }
                _ => "-".to_string(),
            };
            format!("d:{}:{}:{}:{}", l2s(f.layout), f.off_bits.map_or("-".to_string(), |o| o.to_string()), arr,
                    contains_align.get(fi).copied().unwrap_or(false) as u8)
        }
    }).collect();
    format!(
        "lay comp union={} layout={} pattr={} ovirt={} vptr={} opaque={} fwd={} zs={} copy={} force={} ptr={} untagged={} style={} u64a={} bases=- fields={}",
        c.is_union as u8, l2s(c.layout), pattr as u8, c.own_virtual as u8, c.has_vtable_ptr as u8, c.opaque as u8, c.fwd as u8,
        c.zero_sized as u8, copy as u8, o.force_padding as u8, o.ptr_size,
        ir.opts.get("untagged_union").map_or(1, |v| (v == "1") as u8), if o.manually_drop { "m" } else { "w" }, o.u64_align,
        if fields.is_empty() { "-".to_string() } else { fields.join(";") })
}

#[derive(Debug, Clone, Default)]
pub struct ModelAgg {
    pub panic: bool,
    pub is_union: bool,
    pub packed: Option<u64>,
    pub align: Option<u64>,
    /// (model field name, size, align, blob text or "-")
    pub fields: Vec<(String, u64, u64, String)>,
    /// None = rustc rejects the attribute combination
    pub reprc: Option<(u64, u64, Vec<(usize, u64)>)>,
    pub is_packed: bool,
    pub inexact_pad: bool,
    pub regions: Vec<String>,
    /// reprC offsets of the bit-field units (nth, byte offset)
    pub unit_offsets: Vec<(u64, u64)>,
}

pub fn parse_model_answer(a: &str) -> Option<ModelAgg> {
    let t: Vec<&str> = a.split(' ').collect();
    if t.first() != Some(&"emit") { return None; }
    if t.get(1) == Some(&"panic") { return Some(ModelAgg { panic: true, ..Default::default() }); }
    let mut m = ModelAgg { is_union: t.get(1) == Some(&"union"), ..Default::default() };
    let mut i = 2;
    while i < t.len() && t[i] != "reprc" {
        if let Some((k, v)) = t[i].split_once('=') {
            match k {
                "packed" => m.packed = v.parse().ok(),
                "align" => m.align = v.parse().ok(),
                "ispacked" => m.is_packed = v == "1",
                "inexact" => m.inexact_pad = v == "1",
                "regions" => if v != "-" { m.regions = v.split('+').map(|s| s.to_string()).collect(); },
                "fields" => if v != "-" {
                    for f in v.split(',') {
                        let p: Vec<&str> = f.splitn(4, ':').collect();
                        if p.len() != 4 { return None; }
                        m.fields.push((p[0].to_string(), p[1].parse().ok()?, p[2].parse().ok()?, p[3].to_string()));
                    }
                },
                _ => {}
            }
        }
        i += 1;
    }
    if t.get(i) == Some(&"reprc") {
        if t.get(i + 1) == Some(&"reject") { m.reprc = None; }
        else {
            let size = t.get(i + 1)?.parse().ok()?;
            let align = t.get(i + 2)?.parse().ok()?;
            let mut offs = vec![];
            let o = t.get(i + 3)?.strip_prefix("offs=")?;
            if o != "-" {
                for x in o.split(',') {
                    let (a, b) = x.split_once(':')?;
                    offs.push((a.parse().ok()?, b.parse().ok()?));
                }
            }
            m.reprc = Some((size, align, offs));
            if let Some(u) = t.get(i + 4).and_then(|x| x.strip_prefix("uoffs=")) {
                if u != "-" { for x in u.split(',') { let (a, b) = x.split_once(':')?; m.unit_offsets.push((a.parse().ok()?, b.parse().ok()?)); } }
            }
        }
    }
    Some(m)
}
