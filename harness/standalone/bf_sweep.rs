// Standalone sweep of the real `bindgen/codegen/bitfield_unit.rs` (included verbatim).
// Compiled twice by the check: with overflow checks (debug semantics) and without.
// usage: bf_sweep <mode:dbg|rel> <tier:quick|thorough> <seed> <requests-out> <answers-out>
#![allow(dead_code, clippy::all)]
use std::io::Write;

include!(env!("BINDGEN_BF_FILE"));
include!("bf_const_cases.rs");

struct Rng(u64);
impl Rng {
    fn next(&mut self) -> u64 {
        self.0 = self.0.wrapping_add(0x9E3779B97F4A7C15);
        let mut z = self.0;
        z = (z ^ (z >> 30)).wrapping_mul(0xBF58476D1CE4E5B9);
        z = (z ^ (z >> 27)).wrapping_mul(0x94D049BB133111EB);
        z ^ (z >> 31)
    }
}

fn hex(bytes: &[u8]) -> String {
    bytes.iter().map(|b| format!("{b:02x}")).collect()
}

fn run_dyn<const N: usize>(entry: &str, off: usize, w: u8, store: &mut [u8], val: u64) -> u64 {
    let mut arr = [0u8; N];
    arr.copy_from_slice(store);
    let mut unit = __BindgenBitfieldUnit::<[u8; N]>::new(arr);
    let r = match entry {
        "get" => unit.get(off, w),
        "raw_get" => unsafe { __BindgenBitfieldUnit::<[u8; N]>::raw_get(&unit, off, w) },
        "set" => { unit.set(off, w, val); 0 }
        "raw_set" => { unsafe { __BindgenBitfieldUnit::<[u8; N]>::raw_set(&mut unit, off, w, val) }; 0 }
        _ => unreachable!(),
    };
    // read the storage back through the public API only
    let bytes: [u8; N] = unsafe { core::mem::transmute_copy(&unit) };
    store.copy_from_slice(&bytes);
    r
}

fn run_const<const N: usize, const OFF: usize, const W: u8>(entry: &str, store: &mut [u8], val: u64) -> u64 {
    let mut arr = [0u8; N];
    arr.copy_from_slice(store);
    let mut unit = __BindgenBitfieldUnit::<[u8; N]>::new(arr);
    let r = match entry {
        "get_const" => unit.get_const::<OFF, W>(),
        "raw_get_const" => unsafe { __BindgenBitfieldUnit::<[u8; N]>::raw_get_const::<OFF, W>(&unit) },
        "set_const" => { unit.set_const::<OFF, W>(val); 0 }
        "raw_set_const" => { unsafe { __BindgenBitfieldUnit::<[u8; N]>::raw_set_const::<OFF, W>(&mut unit, val) }; 0 }
        _ => unreachable!(),
    };
    let bytes: [u8; N] = unsafe { core::mem::transmute_copy(&unit) };
    store.copy_from_slice(&bytes);
    r
}

fn dyn_dispatch(entry: &str, n: usize, off: usize, w: u8, store: &mut [u8], val: u64) -> u64 {
    macro_rules! d { ($($n:literal)*) => { match n { $($n => run_dyn::<$n>(entry, off, w, store, val),)* _ => unreachable!() } } }
    d!(1 2 3 4 5 6 7 8 9 10 11 12 13 14 15 16)
}

fn main() {
    let a: Vec<String> = std::env::args().collect();
    let mode = a[1].clone();
    let thorough = a[2] == "thorough";
    let seed: u64 = a[3].parse().unwrap();
    let mut req = std::io::BufWriter::new(std::fs::File::create(&a[4]).unwrap());
    let mut ans = std::io::BufWriter::new(std::fs::File::create(&a[5]).unwrap());
    std::panic::set_hook(Box::new(|_| {}));
    let mut rng = Rng(seed ^ 0xC03);
    let mut triples = 0u64;
    let mut ops = 0u64;
    let mut panics = 0u64;
    let mut region_r1 = 0u64;

    let mut do_case = |entry: &str, is_const: bool, n: usize, off: usize, w: u8, store: &[u8], val: u64,
                       req: &mut dyn Write, ans: &mut dyn Write, ops: &mut u64, panics: &mut u64| {
        let is_set = entry.contains("set");
        if is_set {
            writeln!(req, "bf {entry} {mode} {off} {w} {} {val:x}", hex(store)).unwrap();
        } else {
            writeln!(req, "bf {entry} {mode} {off} {w} {}", hex(store)).unwrap();
        }
        let mut s = store.to_vec();
        let e = entry.to_owned();
        let r = std::panic::catch_unwind(std::panic::AssertUnwindSafe(|| {
            if is_const { const_dispatch(&e, n, off, w, &mut s, val).unwrap() } else { dyn_dispatch(&e, n, off, w, &mut s, val) }
        }));
        *ops += 1;
        match r {
            Err(_) => { *panics += 1; writeln!(ans, "panic").unwrap(); }
            Ok(v) => {
                if is_set { writeln!(ans, "{}", hex(&s)).unwrap(); } else { writeln!(ans, "{v:016x}").unwrap(); }
            }
        }
    };

    let mut values = |rng: &mut Rng, n: usize, w: u8, k: usize| -> Vec<(Vec<u8>, u64)> {
        // (storage, value) pairs: zero, ones, alternating, single-bit walk, random
        let mut v: Vec<(Vec<u8>, u64)> = vec![
            (vec![0u8; n], !0u64),
            (vec![0xffu8; n], 0),
            (vec![0xaau8; n], 0x5555_5555_5555_5555),
            (vec![0x55u8; n], 1u64 << ((w as u32 - 1) % 64)),
        ];
        for _ in 0..k {
            let st: Vec<u8> = (0..n).map(|_| rng.next() as u8).collect();
            v.push((st, rng.next()));
        }
        v
    };

    // dynamic entry points: every (n, off, w) triple that fits (thorough) or a stratified sample (quick)
    for n in 1..=16usize {
        let bits = 8 * n;
        for off in 0..bits {
            for w in 1..=64u8 {
                if off + w as usize > bits { break; }
                let r1 = w as usize + off % 8 > 64;
                if !thorough {
                    // quick: keep all region-R1 triples and boundaries, sample the rest
                    let boundary = w == 1 || w == 64 || w as usize == bits - off || off % 8 == 0 && w % 8 == 0
                        || (off + w as usize) % 64 == 0 || w == 63 || w == 33 || w == 32;
                    if !r1 && !boundary && rng.next() % 8 != 0 { continue; }
                }
                triples += 1;
                if r1 { region_r1 += 1; }
                let k = if thorough { 6 } else { 2 };
                for (st, val) in values(&mut rng, n, w, k) {
                    for entry in ["get", "raw_get", "set", "raw_set"] {
                        do_case(entry, false, n, off, w, &st, val, &mut req, &mut ans, &mut ops, &mut panics);
                    }
                }
            }
        }
    }
    // const-generic entry points on the instantiated table
    for &(n, off, w) in CONST_CASES {
        triples += 1;
        let k = if thorough { 12 } else { 3 };
        for (st, val) in values(&mut rng, n, w, k) {
            for entry in ["get_const", "raw_get_const", "set_const", "raw_set_const"] {
                do_case(entry, true, n, off, w as u8, &st, val, &mut req, &mut ans, &mut ops, &mut panics);
            }
        }
    }
    req.flush().unwrap();
    ans.flush().unwrap();
    println!("triples={triples} ops={ops} panics={panics} region_r1_triples={region_r1} const_instantiations={}", CONST_CASES.len());
}
