// Standalone sweep of the real `bindgen/features.rs`.
// The check writes `main.rs` = the current text of /repo/bindgen/features.rs (its `#![..]` inner
// attribute lines commented out) followed by `include!(".../feat_sweep_body.rs")`, so this code
// lives in the same module and can reach the private constructors.  Compiled twice: with and
// without overflow checks, with `--cfg 'feature="__cli"'` (the CLI default-target path).
// usage: feat_sweep <mode:dbg|rel> <tier> <seed> <requests-out> <answers-out>

struct SweepRng(u64);
impl SweepRng {
    fn next(&mut self) -> u64 {
        self.0 = self.0.wrapping_add(0x9E3779B97F4A7C15);
        let mut z = self.0;
        z = (z ^ (z >> 30)).wrapping_mul(0xBF58476D1CE4E5B9);
        z = (z ^ (z >> 27)).wrapping_mul(0x94D049BB133111EB);
        z ^ (z >> 31)
    }
    fn below(&mut self, n: u64) -> u64 {
        self.next() % n
    }
}

fn sweep_hex(s: &str) -> String {
    if s.is_empty() {
        return "-".into();
    }
    s.bytes().map(|b| format!("{b:02x}")).collect()
}

fn show_target(t: RustTarget) -> String {
    match t.0 {
        Version::Nightly => "nightly".into(),
        Version::Stable(m, p) => format!("stable:{m}:{p}"),
    }
}

/// `RustFeatures { a: true, b: false }` -> `a=1 b=0`
fn flags_line(f: RustFeatures) -> String {
    let d = format!("{f:?}");
    let inner = d.trim_start_matches("RustFeatures {").trim_end_matches('}');
    inner
        .split(',')
        .map(|kv| kv.trim())
        .filter(|kv| !kv.is_empty())
        .map(|kv| {
            let (k, v) = kv.split_once(':').unwrap();
            format!("{}={}", k.trim(), if v.trim() == "true" { 1 } else { 0 })
        })
        .collect::<Vec<_>>()
        .join(" ")
}

fn err_kind(msg: &str) -> &'static str {
    if msg.contains("accepted values are of the form") {
        "form"
    } else if msg.contains("largest major version") {
        "major"
    } else if msg.contains("the minor version number must be") {
        "minor"
    } else if msg.contains("the patch version number must be") {
        "patch"
    } else if msg.contains("earliest Rust version supported") {
        "tooearly"
    } else {
        "other"
    }
}

fn answer_parse(t: &str, e: &str) -> String {
    let t = t.to_owned();
    let e = e.to_owned();
    let r = std::panic::catch_unwind(move || {
        let target: RustTarget = match t.parse() {
            Ok(t) => t,
            Err(err) => {
                let err: io::Error = err;
                return format!("err target:{}", err_kind(&err.to_string()));
            }
        };
        let edition: RustEdition = match e.parse() {
            Ok(e) => e,
            Err(_) => return "err edition".to_owned(),
        };
        format!(
            "ok target={} available={} {}",
            show_target(target),
            edition.is_available(target) as u8,
            flags_line(RustFeatures::new(target, edition))
        )
    });
    r.unwrap_or_else(|_| "panic".to_owned())
}

fn main() {
    std::panic::set_hook(Box::new(|_| {}));
    let a: Vec<String> = std::env::args().collect();
    let (mode, tier, seed) = (a[1].as_str(), a[2].as_str(), a[3].parse::<u64>().unwrap_or(1));
    let mut req = String::new();
    let mut ans = String::new();
    let mut push = |r: String, x: String| {
        req.push_str(&r);
        req.push('\n');
        ans.push_str(&x);
        ans.push('\n');
    };
    let latest = LATEST_STABLE_RUST.minor().unwrap();
    let thorough = tier == "thorough";

    // 1. constants and defaults
    {
        let eds: Vec<String> = RustEdition::ALL
            .iter()
            .map(|e| {
                // first minor for which the edition is available, found by probing the real predicate
                let first = (0..=300u64).find(|m| e.is_available(RustTarget(Version::Stable(*m, 0)))).unwrap_or(u64::MAX);
                format!("{e}:{first}")
            })
            .collect();
        let decr = "any";
        push(
            "feat misc".into(),
            format!(
                "latest={} earliest={} default_edition={} decr={} editions={}",
                show_target(RustTarget::default()),
                show_target(EARLIEST_STABLE_RUST),
                RustEdition::default(),
                decr,
                eds.join(",")
            ),
        );
        assert!(RustTarget::default() == LATEST_STABLE_RUST);
    }

    // 2. RustFeatures::new / is_available on raw targets: every minor 0..=latest+3 (thorough: ..=300),
    //    a few patches, huge minors, nightly x every edition
    let top = if thorough { 300 } else { latest + 3 };
    let mut minors: Vec<u64> = (0..=top).collect();
    minors.extend([1000, u32::MAX as u64, u64::MAX - 1, u64::MAX]);
    let patches: &[u64] = if thorough { &[0, 1, 7, 99, u64::MAX] } else { &[0, 1, u64::MAX] };
    let mut targets: Vec<RustTarget> = vec![RustTarget::nightly()];
    for m in &minors {
        for p in patches {
            targets.push(RustTarget(Version::Stable(*m, *p)));
        }
    }
    for t in &targets {
        for e in RustEdition::ALL {
            push(
                format!("feat new t={} e={}", show_target(*t), e),
                format!("available={} {}", e.is_available(*t) as u8, flags_line(RustFeatures::new(*t, e))),
            );
        }
        let t2 = *t;
        let le = std::panic::catch_unwind(move || t2.latest_edition().to_string()).unwrap_or_else(|_| "panic".into());
        push(format!("feat latest_edition t={}", show_target(*t)), le);
    }

    // 3. from_str: systematic forms + random strings over the relevant alphabet
    let mut strings: Vec<String> = vec![];
    for m in (0..=latest + 3).chain([100, 4294967296, u64::MAX - 1, u64::MAX]) {
        strings.push(format!("1.{m}"));
        strings.push(format!("1.{m}.0"));
        strings.push(format!("1.{m}.3"));
        strings.push(format!("1.{m}-nightly"));
        strings.push(format!("1.{m}.2-nightly"));
        strings.push(format!("1.{m}.0-beta"));
        strings.push(format!("1.{m}-beta.4"));
        strings.push(format!("1.+{m}"));
        strings.push(format!("1.0{m}"));
        strings.push(format!("1.{m}.{}", u64::MAX));
    }
    for s in [
        "", "nightly", "Nightly", "nightly-", "-nightly", "beta", "stable", "1", "1.", "1..", "1.-1.0", "1.0.-1", "2.0", "0.60", "01.60",
        "+1.60", "1.cat", "1.0.cat", "1.60.1.2", "1.60-", "1.60-beta.", "1.60-beta.x-y", "1.60-betax", "1.60-alpha", "1.60-nightly-x",
        "1.60--nightly", "1. 60", " 1.60", "1.60 ", "1.+", "1.+-0", "1.++0", "1.0-nightly", "1.00-nightly", "1.+0-nightly",
        "1.0.5-nightly", "1.0.x-nightly", "1.-nightly", "1.0.-nightly", "1.0-nightly.1", "1.0-Nightly", "1.18446744073709551616",
        "1.0.18446744073709551616", "1.18446744073709551616-nightly", "1.0.0", "1.32.0", "1.51", "1.50", "1.51.0-nightly", "1.52-nightly",
        "1.٣", "1.6\u{660}", "١.60",
    ] {
        strings.push(s.to_owned());
    }
    let mut rng = SweepRng(seed ^ 0xC14);
    let alphabet: Vec<&str> = vec!["0", "1", "5", "6", "7", "8", "9", ".", ".", "-", "+", "nightly", "beta", "beta.", "n", "x", " ", "18446744073709551615", "18446744073709551616", "1."];
    let nrand = if thorough { 60000 } else { 6000 };
    for _ in 0..nrand {
        let len = 1 + rng.below(7);
        let mut s = String::new();
        if rng.below(3) > 0 {
            s.push_str("1.");
        }
        for _ in 0..len {
            s.push_str(alphabet[rng.below(alphabet.len() as u64) as usize]);
        }
        strings.push(s);
    }
    let editions = ["2018", "2021", "2024", "2015", "", "2021 ", "02021"];
    for (i, s) in strings.iter().enumerate() {
        let e = if i % 11 == 10 { editions[(i / 11) % editions.len()] } else { editions[i % 3] };
        push(format!("feat parse {mode} {} {}", sweep_hex(s), sweep_hex(e)), answer_parse(s, e));
    }

    std::fs::write(&a[4], req).unwrap();
    std::fs::write(&a[5], ans).unwrap();
    println!("targets={} strings={} minors_top={}", targets.len(), strings.len(), top);
}
